//! C03 — price impact penalises imbalance and cannot be farmed by round trips.
//!
//! Observed (real code): `PoolDelta::price_impact` on generated pools / deltas / prices / params,
//! `SwapMarketExt::swap_impact_value` and `PositionExt::position_price_impact` over `MonMarket`
//! (with and without virtual inventory), `PriceImpactParams::adjusted_factors`.
//!
//! The oracle never re-computes the impact formula. It classifies each trade independently in
//! BigInt (usd values before / after, |long − short| before = d0 and after = d1, same-side ⇔
//! `(L0 ≤ S0) == (L1 ≤ S1)`) and decides the *returned* values:
//!   (i)   d1 > d0 (worsened)              ⇒ impact ≤ 0
//!   (ii)  d1 < d0 (improved) ∧ same-side  ⇒ impact ≥ 0
//!   (ii') d1 < d0 (improved) ∧ cross-over ⇒ impact ≥ 0 as well by the literal text. The code
//!         computes pf·d0ᵉ − nf·d1ᵉ, which is negative for pf < nf and d1 close to d0: that class gets
//!         the stable signature `C03:cross_over:improved:pf<nf` and is still held to the tight
//!         residual bound impact ≥ ⌊P1·pf⌋ − ⌊P1·nf⌋ (P1 = d1ᵉ in the model's fixed-point power), so
//!         anything worse is reported under `C03:cross_over:improved:below_residual_bound`; with
//!         pf ≥ nf a negative value is reported under `C03:cross_over:improved:negative_impact`.
//!   (iii) round trip: Δ on pool P, then −Δ on P+Δ ⇒ impact₁ + impact₂ ≤ slack, where the slack is
//!         exactly 0 for cross-over trips and 1 unit of the last digit for same-side trips (each leg
//!         is a difference of two rounded-down products ⌊P·f⌋, so the sum is
//!         −[(⌊Pa·nf⌋−⌊Pa·pf⌋) − (⌊Pb·nf⌋−⌊Pb·pf⌋)] with Pa ≥ Pb, which is ≤ 1 and ≤ 0 in the reals).
//!   (iv)  adjusted_factors() = (min(pf,nf), nf), in particular .0 ≤ .1
//!   (v)   with virtual inventory: result == real result when the real impact is ≥ 0 or no
//!         inventory exists; otherwise result == min(real, virtual) ≤ real, where `virtual` is the
//!         real `PoolDelta::price_impact` evaluated on the virtual pool by the harness.

use super::numx::*;
use crate::monmarket::{MonMarket, MonPool, MonPosition};
use gmsol_model::{
    fixed::FixedPointOps,
    params::PriceImpactParams,
    pool::delta::{BalanceChange, PriceImpact},
    BalanceExt, PositionExt, SwapMarketExt,
};
use vcommon::{
    big,
    monitor::{guard, run_shards},
    num_bigint::BigInt,
    num_traits::{Signed as _, Zero as _},
    rng::fnv,
    serde_json::{json, Value},
    Args, Monitor, Rng,
};

const RULE: &str = "cases: pools (long/short token amounts), min=max token prices (1, small, log-uniform), signed delta amounts \
(one-sided add/remove, swap-like +x/−y, deposit-like +/+, designed cross-overs with next diff in {d0−small,d0/2,d0,d0+small,2·d0,random}, \
±1..3 dust) and impact params (exponent 0..4 whole units, mostly 1,2,3; factors: production-like tiny, equal, positive>negative, zero, \
up to UNIT and beyond) for u64/9 and u128/20; the real PoolDelta::price_impact, swap_impact_value and position_price_impact \
(virtual inventory absent / equal / opposite / random) run under a panic guard; the oracle classifies the trade in BigInt \
(worsened/improved/unchanged, same-side/cross-over) and decides the returned values by clauses (i) worsened ⇒ ≤0, (ii) improved ∧ \
same-side ⇒ ≥0, cross-over improved negative only as the known class pf<nf within its tight residual bound, (iii) Δ then −Δ sums \
to ≤ 0 (+1 last-digit rounding unit for same-side trips, 0 for cross-over), (iv) adjusted_factors = (min(pf,nf),nf), (v) result with \
virtual inventory == min(real, virtual) when real<0, == real otherwise. non-trivial = a leg returned a non-zero impact; distinct = \
hash(site,type,pool,prices,delta,params) over the first 1.9e6/(2·shards) non-trivial legs per shard and type (memory bound: a lower bound).";

struct Cx<'a> {
    m: &'a mut Monitor,
    t: Tally,
    d: Distinct,
    ty: &'static str,
}

impl Cx<'_> {
    fn viol_sig(&mut self, site: &'static str, sig: &str, w: Value) {
        self.t.hit(site, "flagged(incl. known class)");
        self.m.violation(sig, w);
    }
    fn nontrivial(&mut self, site: &'static str, words: &[u128]) {
        let tag = fnv(site.as_bytes()) ^ fnv(self.ty.as_bytes()).rotate_left(7);
        self.d.note(self.m, tag, words);
        self.t.hit(site, "nontrivial");
    }
}

fn unit<T: Nx + FixedPointOps<D>, const D: u8>() -> u128 {
    <T as FixedPointOps<D>>::UNIT.tu()
}

#[derive(Clone, Copy, Debug)]
struct Par {
    k: u32,
    pf: u128,
    nf: u128,
}

impl Par {
    fn build<T: Nx>(&self, unit: u128) -> PriceImpactParams<T> {
        PriceImpactParams::builder()
            .exponent(T::fu(unit * self.k as u128))
            .positive_factor(T::fu(self.pf))
            .negative_factor(T::fu(self.nf))
            .build()
    }
    fn json(&self, unit: u128) -> Value {
        json!({"exponent": ds(unit * self.k as u128), "positive_factor": ds(self.pf), "negative_factor": ds(self.nf)})
    }
}

fn gen_par<T: Nx>(rng: &mut Rng, unit: u128) -> Par {
    let k = [0u32, 1, 1, 1, 1, 2, 2, 2, 2, 2, 2, 3, 3, 3, 4][rng.below(15) as usize];
    let tiny = |rng: &mut Rng| rng.log_u128(unit / 1_000);
    let (pf, nf) = match rng.below(12) {
        0 => {
            let f = tiny(rng);
            (f, f)
        }
        1 => {
            // positive above negative: must be capped
            let n = tiny(rng);
            (n.saturating_add(1 + tiny(rng)), n)
        }
        2 => (0, tiny(rng)),
        3 => (tiny(rng), 0),
        4 => (gfactor::<T>(rng, unit), gfactor::<T>(rng, unit)),
        5 => {
            let n = rng.range_u128(1, unit);
            (n - 1, n)
        }
        6 => {
            // GMX-like: positive = negative / 2
            let n = tiny(rng).max(2);
            (n / 2, n)
        }
        7 => (rng.range_u128(0, unit), rng.range_u128(0, unit)),
        _ => {
            let a = tiny(rng);
            let b = tiny(rng);
            (a.min(b), a.max(b))
        }
    };
    Par { k, pf, nf }
}

/// Largest diff value whose power still fits for exponent `k` (k-th root of UMAX·UNIT^(k−1)).
fn value_cap<T: Nx>(k: u32, unit: u128) -> u128 {
    let lim = (T::SMAX / 4) as u128;
    if k <= 1 {
        return lim;
    }
    let t = bu(T::UMAX) * num_traits::pow(bu(unit), (k - 1) as usize);
    let r = t.nth_root(k) * BigInt::from(2u8);
    clamp_u::<T>(&r).min(lim)
}

fn gen_price<T: Nx>(rng: &mut Rng) -> u128 {
    match rng.below(5) {
        0 | 1 => 1,
        2 => rng.range_u128(2, 1_000),
        _ => rng.log_u128(1_000_000_000).max(1),
    }
}

/// A pool in usd values: (long value, short value).
fn gen_values<T: Nx>(rng: &mut Rng, cap: u128, unit: u128) -> (u128, u128) {
    match rng.below(8) {
        0 => {
            let l = rng.log_u128(cap);
            let d = rng.log_u128(unit.saturating_mul(10).min(cap));
            (l, if rng.bool() { l.saturating_add(d) } else { l.saturating_sub(d) })
        }
        1 => (rng.log_u128(cap), 0),
        2 => (0, rng.log_u128(cap)),
        3 => {
            // a few dollars: around the "below one unit maps to zero" threshold
            (rng.range_u128(0, unit.saturating_mul(1_000).min(cap)), rng.range_u128(0, unit.saturating_mul(1_000).min(cap)))
        }
        4 => {
            let a = unit.saturating_mul(rng.log_u128((cap / unit).max(1)));
            let b = unit.saturating_mul(rng.log_u128((cap / unit).max(1)));
            (a.min(cap), b.min(cap))
        }
        5 => (rng.range_u128(0, cap), rng.range_u128(0, cap)),
        _ => (rng.log_u128(cap), rng.log_u128(cap)),
    }
}

/// Signed value deltas (long, short) for a pool with values (l, s).
fn gen_delta_values(rng: &mut Rng, l: u128, s: u128, cap: u128, unit: u128) -> (i128, i128) {
    let cap_i = cap.min(i128::MAX as u128 / 4);
    let pos = |x: u128| x.min(cap_i) as i128;
    let d0 = l.abs_diff(s);
    match rng.below(12) {
        0 => {
            let x = pos(rng.log_u128(cap));
            if rng.bool() { (x, 0) } else { (0, x) }
        }
        1 => {
            if rng.bool() { (-pos(rng.range_u128(0, l)), 0) } else { (0, -pos(rng.range_u128(0, s))) }
        }
        2 | 3 => {
            // swap-like: +x on one side, −y (≈ x) on the other
            let long_in = rng.bool();
            let out_side = if long_in { s } else { l };
            let x = rng.log_u128(cap);
            let y = match rng.below(3) {
                0 => x,
                1 => x.saturating_sub(rng.log_u128(x / 100 + 1)),
                _ => rng.log_u128(out_side),
            }
            .min(out_side);
            if long_in { (pos(x), -pos(y)) } else { (-pos(y), pos(x)) }
        }
        4 => (pos(rng.log_u128(cap)), pos(rng.log_u128(cap))),
        5..=8 => {
            // designed: choose the next diff d1 and whether to cross
            let small = rng.log_u128(unit.saturating_mul(2)) + 1;
            let d1 = match rng.below(7) {
                0 => d0.saturating_sub(small),
                1 => d0 / 2,
                2 => d0,
                3 => d0.saturating_add(small),
                4 => d0.saturating_mul(2),
                5 => d0.saturating_sub(1),
                _ => rng.log_u128(cap),
            }
            .min(cap);
            let cross = rng.chance(3, 4);
            // total change of (small side − large side) needed
            let change = if cross { d0.saturating_add(d1) } else { d1.abs_diff(d0) };
            let toward_balance = cross || d1 < d0;
            let long_is_small = l <= s;
            // raise the small side (or lower the large side) to move toward balance
            match rng.below(3) {
                0 => {
                    // add to one side
                    let x = pos(change);
                    if toward_balance == long_is_small { (x, 0) } else { (0, x) }
                }
                1 => {
                    // remove from the other side
                    let x = pos(change);
                    if toward_balance == long_is_small {
                        (0, -x.min(pos(s)))
                    } else {
                        (-x.min(pos(l)), 0)
                    }
                }
                _ => {
                    // swap: half on each side
                    let x = pos(change / 2);
                    let y = pos(change - change / 2);
                    if toward_balance == long_is_small {
                        (x, -y.min(pos(s)))
                    } else {
                        (-y.min(pos(l)), x)
                    }
                }
            }
        }
        9 => {
            let x = rng.range_i64(-3, 3) as i128;
            let y = rng.range_i64(-3, 3) as i128;
            (x.max(-(pos(l))), y.max(-(pos(s))))
        }
        _ => {
            let x = pos(rng.log_u128(cap));
            let y = pos(rng.log_u128(cap));
            (
                if rng.bool() { x } else { -x.min(pos(l)) },
                if rng.bool() { y } else { -y.min(pos(s)) },
            )
        }
    }
}

/// Independent classification of a trade in usd values.
struct Class {
    d0: BigInt,
    d1: BigInt,
    same_side: bool,
}

impl Class {
    fn new(l0: &BigInt, s0: &BigInt, l1: &BigInt, s1: &BigInt) -> Self {
        Self {
            d0: (l0 - s0).abs(),
            d1: (l1 - s1).abs(),
            same_side: (l0 <= s0) == (l1 <= s1),
        }
    }
    fn kind(&self) -> &'static str {
        match (self.d1.cmp(&self.d0), self.same_side) {
            (std::cmp::Ordering::Greater, true) => "same_side:worsened",
            (std::cmp::Ordering::Greater, false) => "cross_over:worsened",
            (std::cmp::Ordering::Less, true) => "same_side:improved",
            (std::cmp::Ordering::Less, false) => "cross_over:improved",
            (std::cmp::Ordering::Equal, true) => "same_side:unchanged",
            (std::cmp::Ordering::Equal, false) => "cross_over:unchanged",
        }
    }
    fn json(&self) -> Value {
        json!({"initial_diff": ds(&self.d0), "next_diff": ds(&self.d1), "same_side": self.same_side, "class": self.kind()})
    }
}

fn bc_name(b: &BalanceChange) -> &'static str {
    match b {
        BalanceChange::Improved => "Improved",
        BalanceChange::Worsened => "Worsened",
        BalanceChange::Unchanged => "Unchanged",
    }
}

/// Clauses (i), (ii), (ii') on one returned impact. `bc`: the returned balance change if it refers
/// to this classification; `None` for the final value of a call with virtual inventory (it may
/// come from the virtual pool). For such a final value a negative impact of an improving
/// cross-over trade is not judged again: it is only reachable when the real impact was already
/// negative (judged on the real value) and then follows from clause (v).
#[allow(clippy::too_many_arguments)]
fn sign_clauses(
    cx: &mut Cx,
    site: &'static str,
    cls: &Class,
    impact: &BigInt,
    bc: Option<&BalanceChange>,
    par: &Par,
    unit: u128,
    w: &dyn Fn() -> Value,
) {
    let final_with_virtual = bc.is_none();
    cx.m.eval();
    cx.t.hit(site, cls.kind());
    if impact.is_positive() {
        cx.t.hit(site, "impact_positive");
    } else if impact.is_negative() {
        cx.t.hit(site, "impact_negative");
    } else {
        cx.t.hit(site, "impact_zero");
    }
    let wit = |extra: Value| json!({"site": site, "case": w(), "classification": cls.json(), "impact": ds(impact), "detail": extra});
    if let Some(bc) = bc {
        let exp = match cls.d1.cmp(&cls.d0) {
            std::cmp::Ordering::Greater => "Worsened",
            std::cmp::Ordering::Less => "Improved",
            std::cmp::Ordering::Equal => "Unchanged",
        };
        if bc_name(bc) != exp {
            cx.viol_sig(site, "C03:price_impact:balance_change_misclassified", wit(json!({"returned": bc_name(bc), "expected": exp})));
        }
    }
    match cls.d1.cmp(&cls.d0) {
        std::cmp::Ordering::Greater => {
            if impact.is_positive() {
                let sig = if cls.same_side { "C03:same_side:worsened:positive_impact" } else { "C03:cross_over:worsened:positive_impact" };
                cx.viol_sig(site, sig, wit(Value::Null));
            }
        }
        std::cmp::Ordering::Less => {
            if impact.is_negative() {
                if cls.same_side {
                    cx.viol_sig(site, "C03:same_side:improved:negative_impact", wit(Value::Null));
                } else if final_with_virtual {
                    cx.t.hit(site, "cross_over_improved_negative(follows from negative real impact and clause v)");
                } else if par.pf < par.nf {
                    // Literal reading of the property: an improving trade got a negative impact.
                    let ub = bu(unit);
                    let p1 = aef_big(&cls.d1, par.k, &ub);
                    let bound = big::div_floor(&(&p1 * bu(par.pf)), &ub) - big::div_floor(&(&p1 * bu(par.nf)), &ub);
                    if *impact < bound {
                        cx.viol_sig(site, "C03:cross_over:improved:below_residual_bound", wit(json!({"residual_bound": ds(&bound)})));
                    } else {
                        cx.t.hit(site, "known_class_cross_over_improved_negative_pf<nf(within residual bound)");
                        cx.viol_sig(site, "C03:cross_over:improved:pf<nf", wit(json!({"residual_bound": ds(&bound)})));
                    }
                } else {
                    cx.viol_sig(site, "C03:cross_over:improved:negative_impact", wit(Value::Null));
                }
            }
        }
        std::cmp::Ordering::Equal => {}
    }
}

/// One scenario at the `PoolDelta` level, incl. the round trip, and the same scenario through
/// `swap_impact_value` with optional virtual inventory.
struct Scn {
    la: u128,
    sa: u128,
    pl: u128,
    ps: u128,
    dl: i128,
    ds_: i128,
    par: Par,
}

impl Scn {
    fn json(&self, ty: &str, unit: u128) -> Value {
        json!({"type": ty, "pool": {"long_amount": ds(self.la), "short_amount": ds(self.sa)},
               "long_token_price": ds(self.pl), "short_token_price": ds(self.ps),
               "delta": {"long_amount": ds(self.dl), "short_amount": ds(self.ds_)}, "params": self.par.json(unit)})
    }
    fn words(&self) -> [u128; 10] {
        [self.la, self.sa, self.pl, self.ps, self.dl as u128, self.ds_ as u128, self.par.k as u128, self.par.pf, self.par.nf, 0]
    }
}

fn gen_scn<T: Nx>(rng: &mut Rng, unit: u128) -> Scn {
    let par = gen_par::<T>(rng, unit);
    let cap = value_cap::<T>(par.k, unit);
    let (lv, sv) = gen_values::<T>(rng, cap, unit);
    let pl = gen_price::<T>(rng);
    let ps = if rng.chance(1, 3) { pl } else { gen_price::<T>(rng) };
    let la = lv / pl;
    let sa = sv / ps;
    let (dlv, dsv) = gen_delta_values(rng, la * pl, sa * ps, cap, unit);
    // to amounts; removals are bounded by the pool
    let to_amt = |dv: i128, p: u128, have: u128| -> i128 {
        let a = (dv.unsigned_abs() / p) as i128;
        if dv < 0 {
            -a.min(have.min(i128::MAX as u128) as i128)
        } else {
            a
        }
    };
    let mut dl = to_amt(dlv, pl, la);
    let mut ds_ = to_amt(dsv, ps, sa);
    // keep inside the signed type of T
    dl = dl.clamp(T::SMIN + 1, T::SMAX);
    ds_ = ds_.clamp(T::SMIN + 1, T::SMAX);
    Scn { la, sa, pl, ps, dl, ds_, par }
}

fn impact_of<T: Nx>(r: gmsol_model::Result<PriceImpact<T::Signed>>) -> Option<(BigInt, BalanceChange)> {
    r.ok().map(|p| (bs(T::ts(&p.value)), p.balance_change))
}

type Leg = Option<(BigInt, BalanceChange)>;

fn leg_pool<T: Nx + FixedPointOps<D>, const D: u8>(
    pool: &MonPool<T>,
    dl: i128,
    ds_: i128,
    pl: u128,
    ps: u128,
    params: &PriceImpactParams<T>,
) -> Result<Leg, String> {
    guard(|| {
        let delta = pool.pool_delta_with_amounts(&T::fs(dl), &T::fs(ds_), &T::fu(pl), &T::fu(ps));
        impact_of::<T>(delta.and_then(|d| d.price_impact::<D>(params)))
    })
}

fn round_trip_check(cx: &mut Cx, site: &'static str, cls: &Class, i1: &BigInt, i2: &BigInt, w: &dyn Fn() -> Value) {
    cx.m.eval();
    cx.t.hit(site, "round_trips");
    let sum = i1 + i2;
    let slack = if cls.same_side { BigInt::from(1u8) } else { BigInt::zero() };
    if sum > slack {
        let sig = if cls.same_side {
            "C03:round_trip:same_side:positive_total_beyond_rounding_unit"
        } else {
            "C03:round_trip:cross_over:positive_total"
        };
        cx.viol_sig(site, sig, json!({"site": site, "case": w(), "classification_of_first_leg": cls.json(), "impact_1": ds(i1), "impact_2": ds(i2), "total": ds(&sum)}));
    } else if sum.is_positive() {
        cx.t.hit(site, "round_trip_total_plus_one_last_digit(rounding)");
        if cx.t.get(site, "round_trip_total_plus_one_last_digit(rounding)") == 1 && cx.m.wants_sample() {
            cx.m.sample(json!({"note": "same-side round trip totals +1 unit of the last digit (rounding of the two floor products)", "site": site, "case": w(), "impact_1": ds(i1), "impact_2": ds(i2)}));
        }
    } else if sum.is_zero() {
        cx.t.hit(site, "round_trip_total_zero");
    } else {
        cx.t.hit(site, "round_trip_total_negative");
    }
    if cls.same_side {
        cx.t.hit(site, "round_trips_same_side");
    } else {
        cx.t.hit(site, "round_trips_cross_over");
    }
}

fn check_adjusted<T: Nx>(cx: &mut Cx, par: &Par, params: &PriceImpactParams<T>, unit: u128) {
    let site = "adjusted_factors";
    cx.m.eval();
    cx.t.hit(site, "calls");
    let (p, n) = params.adjusted_factors();
    let (p, n) = (p.tu(), n.tu());
    if par.pf > par.nf {
        cx.t.hit(site, "positive_above_negative(capped)");
    } else if par.pf == par.nf {
        cx.t.hit(site, "equal");
    } else {
        cx.t.hit(site, "positive_below_negative");
    }
    if p > n {
        cx.viol_sig(site, "C03:adjusted_factors:positive_exceeds_negative", json!({"params": par.json(unit), "adjusted": [ds(p), ds(n)]}));
    } else if p != par.pf.min(par.nf) || n != par.nf {
        cx.viol_sig(site, "C03:adjusted_factors:not_min_of_positive_and_negative", json!({"params": par.json(unit), "adjusted": [ds(p), ds(n)]}));
    }
}

fn case_pool<T: Mk<D>, const D: u8>(cx: &mut Cx, rng: &mut Rng) {
    let u = unit::<T, D>();
    let sc = gen_scn::<T>(rng, u);
    let params = sc.par.build::<T>(u);
    check_adjusted::<T>(cx, &sc.par, &params, u);
    let w = || sc.json(T::NAME, u);
    let site = "PoolDelta::price_impact";
    let pool0 = MonPool { long_amount: T::fu(sc.la), short_amount: T::fu(sc.sa) };
    cx.t.hit(site, "calls");
    match sc.par.k {
        0 => cx.t.hit(site, "exponent_0"),
        1 => cx.t.hit(site, "exponent_1"),
        2 => cx.t.hit(site, "exponent_2"),
        3 => cx.t.hit(site, "exponent_3"),
        _ => cx.t.hit(site, "exponent_4"),
    }
    // oracle classification (values are amount·price, exactly)
    let l0 = bu(sc.la) * bu(sc.pl);
    let s0 = bu(sc.sa) * bu(sc.ps);
    let l1 = &l0 + bs(sc.dl) * bu(sc.pl);
    let s1 = &s0 + bs(sc.ds_) * bu(sc.ps);
    let cls = Class::new(&l0, &s0, &l1, &s1);

    let leg1 = match leg_pool::<T, D>(&pool0, sc.dl, sc.ds_, sc.pl, sc.ps, &params) {
        Ok(l) => l,
        Err(_) => {
            cx.t.hit(site, "panics(counted)");
            cx.m.count("panics");
            return;
        }
    };
    let Some((i1, bc1)) = leg1 else {
        cx.t.hit(site, "err");
        return;
    };
    cx.t.hit(site, "ok");
    if l1.is_negative() || s1.is_negative() {
        // the real code accepted a delta that drains more than the pool holds: cannot classify
        cx.m.inconclusive("harness: PoolDelta accepted a negative next value");
        return;
    }
    sign_clauses(cx, site, &cls, &i1, Some(&bc1), &sc.par, u, &w);
    if !i1.is_zero() {
        cx.nontrivial(site, &sc.words());
        if cx.m.wants_sample() && rng.chance(1, 64) {
            cx.m.sample(json!({"site": site, "case": w(), "classification": cls.json(), "impact": ds(&i1)}));
        }
    }

    // ---- (iii) round trip on the resulting pool ------------------------------------------------
    let la1 = bu(sc.la) + bs(sc.dl);
    let sa1 = bu(sc.sa) + bs(sc.ds_);
    if fits_u::<T>(&la1) && fits_u::<T>(&sa1) {
        let pool1 = MonPool { long_amount: T::fu(big::to_u128(&la1).unwrap()), short_amount: T::fu(big::to_u128(&sa1).unwrap()) };
        match leg_pool::<T, D>(&pool1, -sc.dl, -sc.ds_, sc.pl, sc.ps, &params) {
            Ok(Some((i2, bc2))) => {
                let cls2 = Class::new(&l1, &s1, &l0, &s0);
                let w2 = || json!({"second_leg_of": w()});
                sign_clauses(cx, site, &cls2, &i2, Some(&bc2), &sc.par, u, &w2);
                round_trip_check(cx, site, &cls, &i1, &i2, &w);
            }
            Ok(None) => cx.t.hit(site, "round_trip_second_leg_err"),
            Err(_) => {
                cx.t.hit(site, "panics(counted)");
                cx.m.count("panics");
            }
        }
    }

    // ---- the same trade through SwapMarketExt::swap_impact_value, with / without virtual inventory
    case_swap_market::<T, D>(cx, rng, &sc, &cls, &i1, u);
}

fn gen_virtual<T: Nx>(rng: &mut Rng, l: u128, s: u128, cap: u128) -> Option<(u128, u128)> {
    match rng.below(8) {
        0 | 1 => None,
        2 => Some((l, s)),
        3 => Some((s, l)), // skewed the other way
        4 => {
            // same direction, more skew
            if l >= s {
                Some((l.saturating_add(rng.log_u128(cap)).min(T::UMAX / 4), s))
            } else {
                Some((l, s.saturating_add(rng.log_u128(cap)).min(T::UMAX / 4)))
            }
        }
        5 => Some((rng.log_u128(cap), rng.log_u128(cap))),
        6 => {
            // balanced
            let x = rng.log_u128(cap);
            Some((x, x))
        }
        _ => Some((l.saturating_add(rng.log_u128(cap)).min(T::UMAX / 4), s.saturating_add(rng.log_u128(cap)).min(T::UMAX / 4))),
    }
}

fn case_swap_market<T: Mk<D>, const D: u8>(cx: &mut Cx, rng: &mut Rng, sc: &Scn, cls: &Class, direct: &BigInt, u: u128) {
    let site = "swap_impact_value";
    let params = sc.par.build::<T>(u);
    let cap = value_cap::<T>(sc.par.k, u);
    let vi = gen_virtual::<T>(rng, sc.la, sc.sa, (cap / sc.pl.max(sc.ps)).max(1));
    let mut market: MonMarket<T, D> = T::market();
    market.config.swap_impact_params = params;
    market.primary = MonPool { long_amount: T::fu(sc.la), short_amount: T::fu(sc.sa) };
    market.vi_swaps = vi.map(|(l, s)| MonPool { long_amount: T::fu(l), short_amount: T::fu(s) });
    let w = || json!({"scenario": sc.json(T::NAME, u), "virtual_inventory_for_swaps": vi.map(|(l, s)| json!({"long_amount": ds(l), "short_amount": ds(s)}))});
    cx.t.hit(site, "calls");
    cx.t.hit(site, if vi.is_some() { "with_virtual_inventory" } else { "without_virtual_inventory" });
    let r = guard(|| {
        let delta = market
            .primary
            .pool_delta_with_amounts(&T::fs(sc.dl), &T::fs(sc.ds_), &T::fu(sc.pl), &T::fu(sc.ps))
            .ok()?;
        let real = impact_of::<T>(market.swap_impact_value(&delta, false));
        let with_vi = impact_of::<T>(market.swap_impact_value(&delta, true));
        // the virtual pool's own impact, by the real PoolDelta code
        let virt = market.vi_swaps.as_ref().map(|v| {
            impact_of::<T>(
                v.pool_delta_with_values(
                    *delta.delta().long_value(),
                    *delta.delta().short_value(),
                    &T::fu(sc.pl),
                    &T::fu(sc.ps),
                )
                .and_then(|d| d.price_impact::<D>(&params)),
            )
        });
        Some((real, with_vi, virt))
    });
    let (real, with_vi, virt) = match r {
        Err(_) => {
            cx.t.hit(site, "panics(counted)");
            cx.m.count("panics");
            return;
        }
        Ok(None) => {
            cx.t.hit(site, "delta_err");
            return;
        }
        Ok(Some(x)) => x,
    };
    let Some((real, real_bc)) = real else {
        cx.t.hit(site, "err");
        return;
    };
    cx.t.hit(site, "ok");
    if &real != direct {
        cx.viol_sig(site, "C03:swap_impact_value:differs_from_pool_delta_impact", json!({"case": w(), "swap_impact_value(no virtual)": ds(&real), "PoolDelta::price_impact": ds(direct)}));
        return;
    }
    sign_clauses(cx, site, cls, &real, Some(&real_bc), &sc.par, u, &w);
    // (v)
    cx.m.eval();
    match (with_vi, virt) {
        (Some((v, _)), None) => {
            cx.t.hit(site, "vi_absent");
            if v != real {
                cx.viol_sig(site, "C03:swap_impact_value:changes_without_virtual_inventory", json!({"case": w(), "real": ds(&real), "returned": ds(&v)}));
            }
        }
        (Some((v, _)), Some(virt)) => {
            if !real.is_negative() {
                cx.t.hit(site, "vi_skipped_real_not_negative");
                if v != real {
                    cx.viol_sig(site, "C03:swap_impact_value:virtual_used_although_real_not_negative", json!({"case": w(), "real": ds(&real), "returned": ds(&v)}));
                }
            } else {
                match virt {
                    Some((vv, _)) => {
                        let worse = if vv < real { vv.clone() } else { real.clone() };
                        if v > real {
                            cx.viol_sig(site, "C03:swap_impact_value:virtual_result_better_than_real", json!({"case": w(), "real": ds(&real), "virtual": ds(&vv), "returned": ds(&v)}));
                        } else if v != worse {
                            cx.viol_sig(site, "C03:swap_impact_value:not_worse_of_real_and_virtual", json!({"case": w(), "real": ds(&real), "virtual": ds(&vv), "returned": ds(&v)}));
                        } else if vv < real {
                            cx.t.hit(site, "vi_virtual_worse_taken");
                        } else {
                            cx.t.hit(site, "vi_real_worse_or_equal_kept");
                        }
                        // clauses on the final value, w.r.t. the real pool's classification
                        sign_clauses(cx, "swap_impact_value(final with virtual)", cls, &v, None, &sc.par, u, &w);
                    }
                    None => {
                        // the virtual computation fails ⇒ the call must have failed too
                        cx.viol_sig(site, "C03:swap_impact_value:value_although_virtual_fails", json!({"case": w(), "real": ds(&real), "returned": ds(&v)}));
                    }
                }
            }
        }
        (None, Some(None)) if real.is_negative() => cx.t.hit(site, "vi_virtual_computation_err"),
        (None, _) => {
            cx.viol_sig(site, "C03:swap_impact_value:fails_only_with_virtual_flag", json!({"case": w(), "real": ds(&real)}));
        }
    }
}

/// `position_price_impact` over the open-interest pools.
fn case_position<T: Mk<D>, const D: u8>(cx: &mut Cx, rng: &mut Rng) {
    let u = unit::<T, D>();
    let site = "position_price_impact";
    let par = gen_par::<T>(rng, u);
    let params = par.build::<T>(u);
    let cap = value_cap::<T>(par.k, u);
    let (lv, sv) = gen_values::<T>(rng, cap, u);
    let is_long = rng.bool();
    // split each side between the two collateral kinds
    let split = |rng: &mut Rng, v: u128| {
        let a = match rng.below(3) {
            0 => 0,
            1 => v,
            _ => rng.range_u128(0, v),
        };
        (a, v - a)
    };
    let (ll, ls) = split(rng, lv);
    let (sl, ss) = split(rng, sv);
    // the size delta acts on the position's own side only
    let (own, other) = if is_long { (lv, sv) } else { (sv, lv) };
    let (dlv, dsv) = gen_delta_values(rng, own, other, cap, u);
    let mut sd = if rng.chance(1, 5) { dsv } else { dlv };
    if sd < 0 {
        sd = -((sd.unsigned_abs().min(own)) as i128);
    }
    if sd == 0 && rng.bool() {
        sd = (rng.log_u128(cap).min(i128::MAX as u128 / 4)) as i128;
    }
    let sd = sd.clamp(T::SMIN + 1, T::SMAX);
    let vi = gen_virtual::<T>(rng, lv, sv, cap);

    let mut market: MonMarket<T, D> = T::market();
    market.config.position_impact_params = params;
    market.open_interest.0 = MonPool { long_amount: T::fu(ll), short_amount: T::fu(ls) };
    market.open_interest.1 = MonPool { long_amount: T::fu(sl), short_amount: T::fu(ss) };
    market.vi_positions = vi.map(|(l, s)| MonPool { long_amount: T::fu(l), short_amount: T::fu(s) });
    let mut position = if is_long { MonPosition::<T, D>::long(true) } else { MonPosition::<T, D>::short(true) };
    let w = || {
        json!({"type": T::NAME, "open_interest": {"long": [ds(ll), ds(ls)], "short": [ds(sl), ds(ss)]}, "is_long": is_long,
               "size_delta_usd": ds(sd), "params": par.json(u),
               "virtual_inventory_for_positions": vi.map(|(l, s)| json!({"long_amount": ds(l), "short_amount": ds(s)}))})
    };
    cx.t.hit(site, "calls");
    cx.t.hit(site, if vi.is_some() { "with_virtual_inventory" } else { "without_virtual_inventory" });
    cx.t.hit(site, if sd > 0 { "increase" } else if sd < 0 { "decrease" } else { "zero_delta" });
    check_adjusted::<T>(cx, &par, &params, u);

    let (l0, s0) = (bu(lv), bu(sv));
    let (l1, s1) = if is_long { (&l0 + bs(sd), s0.clone()) } else { (l0.clone(), &s0 + bs(sd)) };
    let cls = Class::new(&l0, &s0, &l1, &s1);

    let r = guard(|| {
        let ops = position.ops(&mut market);
        let real = impact_of::<T>(ops.position_price_impact(&T::fs(sd), false));
        let with_vi = impact_of::<T>(ops.position_price_impact(&T::fs(sd), true));
        (real, with_vi)
    });
    let (real, with_vi) = match r {
        Err(_) => {
            cx.t.hit(site, "panics(counted)");
            cx.m.count("panics");
            return;
        }
        Ok(x) => x,
    };
    let Some((real, real_bc)) = real else {
        cx.t.hit(site, "err");
        return;
    };
    cx.t.hit(site, "ok");
    sign_clauses(cx, site, &cls, &real, Some(&real_bc), &par, u, &w);
    if !real.is_zero() {
        cx.nontrivial(site, &[ll, ls, sl, ss, is_long as u128, sd as u128, par.k as u128, par.pf, par.nf]);
    }

    // the virtual pool's own impact, computed with the real PoolDelta code on the cancelled
    // inventory (+ the documented offset for decreases)
    let virt: Option<Leg> = vi.map(|(vl, vs)| {
        let m = vl.min(vs);
        let off = if sd < 0 { sd.unsigned_abs() } else { 0 };
        let (a, b) = (bu(vl - m) + bu(off), bu(vs - m) + bu(off));
        if !fits_u::<T>(&a) || !fits_u::<T>(&b) {
            return None;
        }
        let pool = MonPool { long_amount: T::fu(big::to_u128(&a).unwrap()), short_amount: T::fu(big::to_u128(&b).unwrap()) };
        let (dl, ds_) = if is_long { (sd, 0) } else { (0, sd) };
        guard(|| {
            impact_of::<T>(
                pool.pool_delta_with_values(T::fs(dl), T::fs(ds_), &T::fu(1), &T::fu(1))
                    .and_then(|d| d.price_impact::<D>(&params)),
            )
        })
        .ok()
        .flatten()
    });
    cx.m.eval();
    match (with_vi, virt) {
        (Some((v, _)), None) => {
            cx.t.hit(site, "vi_absent");
            if v != real {
                cx.viol_sig(site, "C03:position_price_impact:changes_without_virtual_inventory", json!({"case": w(), "real": ds(&real), "returned": ds(&v)}));
            }
        }
        (Some((v, _)), Some(virt)) => {
            if !real.is_negative() {
                cx.t.hit(site, "vi_skipped_real_not_negative");
                if v != real {
                    cx.viol_sig(site, "C03:position_price_impact:virtual_used_although_real_not_negative", json!({"case": w(), "real": ds(&real), "returned": ds(&v)}));
                }
            } else if v > real {
                cx.viol_sig(site, "C03:position_price_impact:virtual_result_better_than_real", json!({"case": w(), "real": ds(&real), "returned": ds(&v)}));
            } else {
                match virt {
                    Some((vv, _)) => {
                        let worse = if vv < real { vv.clone() } else { real.clone() };
                        if v != worse {
                            cx.viol_sig(site, "C03:position_price_impact:not_worse_of_real_and_virtual", json!({"case": w(), "real": ds(&real), "virtual": ds(&vv), "returned": ds(&v)}));
                        } else if vv < real {
                            cx.t.hit(site, "vi_virtual_worse_taken");
                        } else {
                            cx.t.hit(site, "vi_real_worse_or_equal_kept");
                        }
                    }
                    None => cx.t.hit(site, "vi_harness_could_not_recompute_virtual(≤ real checked only)"),
                }
                sign_clauses(cx, "position_price_impact(final with virtual)", &cls, &v, None, &par, u, &w);
            }
        }
        (None, Some(_)) if real.is_negative() => cx.t.hit(site, "vi_virtual_computation_err"),
        (None, _) => {
            cx.viol_sig(site, "C03:position_price_impact:fails_only_with_virtual_flag", json!({"case": w(), "real": ds(&real)}));
        }
    }

    // ---- round trip: the same size back on the updated open interest (no virtual inventory) ----
    if sd != 0 && !l1.is_negative() && !s1.is_negative() {
        let own1 = if is_long { &l1 } else { &s1 };
        if fits_u::<T>(own1) {
            let own1 = big::to_u128(own1).unwrap();
            let mut m2: MonMarket<T, D> = T::market();
            m2.config.position_impact_params = params;
            if is_long {
                m2.open_interest.0 = MonPool { long_amount: T::fu(own1), short_amount: T::fu(0) };
                m2.open_interest.1 = MonPool { long_amount: T::fu(sl), short_amount: T::fu(ss) };
            } else {
                m2.open_interest.0 = MonPool { long_amount: T::fu(ll), short_amount: T::fu(ls) };
                m2.open_interest.1 = MonPool { long_amount: T::fu(0), short_amount: T::fu(own1) };
            }
            let r2 = guard(|| impact_of::<T>(position.ops(&mut m2).position_price_impact(&T::fs(-sd), false)));
            match r2 {
                Ok(Some((i2, bc2))) => {
                    let cls2 = Class::new(&l1, &s1, &l0, &s0);
                    let w2 = || json!({"second_leg_of": w()});
                    sign_clauses(cx, site, &cls2, &i2, Some(&bc2), &par, u, &w2);
                    round_trip_check(cx, site, &cls, &real, &i2, &w);
                }
                Ok(None) => cx.t.hit(site, "round_trip_second_leg_err"),
                Err(_) => {
                    cx.t.hit(site, "panics(counted)");
                    cx.m.count("panics");
                }
            }
        }
    }
}

fn shard_run<T: Mk<D>, const D: u8>(seed: u64, shard: u64, shards: u64, n: u64, m: &mut Monitor) {
    let mut rng = Rng::derive(seed, shard, fnv(T::NAME.as_bytes()) ^ 0xC03);
    let mut cx = Cx {
        m,
        t: Tally::default(),
        d: Distinct::new(Distinct::budget_for(shards)),
        ty: T::NAME,
    };
    for i in 0..n {
        if i % 3 == 2 {
            case_position::<T, D>(&mut cx, &mut rng);
        } else {
            case_pool::<T, D>(&mut cx, &mut rng);
        }
    }
    let Cx { m, t, .. } = cx;
    t.flush(T::NAME, m);
}

pub fn run(args: &Args) -> i32 {
    let mut mon = Monitor::new(args, RULE);
    let shards = args.scale(64, 256);
    let per_shard_per_type = match args.extra.get("cases").and_then(|s| s.parse::<u64>().ok()) {
        Some(n) => n,
        None => args.scale(150_000, 1_800_000),
    };
    let seed = args.seed;
    run_shards(&mut mon, args.threads, shards, |shard, m| {
        shard_run::<u64, 9>(seed, shard, shards, per_shard_per_type, m);
        shard_run::<u128, 20>(seed, shard, shards, per_shard_per_type, m);
    });
    mon.assume("impact exponents are whole units 0..4 (the property quantifies over unit multiples; non-unit exponents use the approximate rust_decimal path)");
    mon.assume("token prices are used with min == max inside PoolDelta (it takes a single price per token)");
    mon.assume("round trips are evaluated without virtual inventory; with inventory the result is separately shown to be ≤ the real one whenever the real one is negative, which implies the bound");
    for ty in ["u64d9", "u128d20"] {
        for site in ["PoolDelta::price_impact", "position_price_impact"] {
            for k in ["same_side:worsened", "same_side:improved", "cross_over:worsened", "cross_over:improved"] {
                mon.require(&format!("{ty}.{site}.{k}"), 300);
            }
            mon.require(&format!("{ty}.{site}.round_trips_same_side"), 300);
            mon.require(&format!("{ty}.{site}.round_trips_cross_over"), 300);
            mon.require(&format!("{ty}.{site}.impact_positive"), 300);
            mon.require(&format!("{ty}.{site}.impact_negative"), 300);
        }
        mon.require(&format!("{ty}.swap_impact_value.vi_virtual_worse_taken"), 100);
        mon.require(&format!("{ty}.swap_impact_value.vi_real_worse_or_equal_kept"), 100);
        mon.require(&format!("{ty}.swap_impact_value.vi_skipped_real_not_negative"), 100);
        mon.require(&format!("{ty}.position_price_impact.vi_virtual_worse_taken"), 100);
        mon.require(&format!("{ty}.position_price_impact.vi_skipped_real_not_negative"), 100);
        mon.require(&format!("{ty}.adjusted_factors.positive_above_negative(capped)"), 300);
        for e in ["exponent_1", "exponent_2", "exponent_3"] {
            mon.require(&format!("{ty}.PoolDelta::price_impact.{e}"), 1_000);
        }
    }
    mon.finish()
}
