//! Shared plumbing of the arithmetic monitors: a tiny trait unifying the two numeric
//! instantiations of the model (`u64`/9 decimals, `u128`/20 decimals), boundary-biased generators
//! on top of `vcommon::Rng`, BigInt conversions and a cheap per-shard tally that is flushed into
//! the monitor's counters as `<type>.<helper>.<class>`.
//!
//! Everything the harness generates is carried as `u128` / `i128` and converted at the call site,
//! so the oracles never share an integer type (or an overflow) with the code under test.

use std::collections::BTreeMap;

use gmsol_model::num::{MulDiv, Num, Unsigned};
use num_traits::CheckedSub;
use vcommon::{
    num_bigint::BigInt,
    serde_json::{json, Value},
    Monitor, Rng,
};

/// The two numeric instantiations used by the model.
pub trait Nx:
    MulDiv
    + Num
    + Unsigned<Signed: Num + std::fmt::Debug + Copy + Send + Sync>
    + Copy
    + Default
    + CheckedSub
    + std::fmt::Display
    + Send
    + Sync
    + 'static
{
    const NAME: &'static str;
    const UMAX: u128;
    const SMAX: i128;
    const SMIN: i128;
    /// From harness representation (caller guarantees `x <= UMAX`).
    fn fu(x: u128) -> Self;
    fn tu(self) -> u128;
    /// From harness representation (caller guarantees `SMIN <= x <= SMAX`).
    fn fs(x: i128) -> Self::Signed;
    fn ts(s: &Self::Signed) -> i128;
}

impl Nx for u64 {
    const NAME: &'static str = "u64d9";
    const UMAX: u128 = u64::MAX as u128;
    const SMAX: i128 = i64::MAX as i128;
    const SMIN: i128 = i64::MIN as i128;
    fn fu(x: u128) -> Self {
        assert!(x <= Self::UMAX, "harness: value out of u64 range");
        x as u64
    }
    fn tu(self) -> u128 {
        self as u128
    }
    fn fs(x: i128) -> i64 {
        assert!((Self::SMIN..=Self::SMAX).contains(&x), "harness: value out of i64 range");
        x as i64
    }
    fn ts(s: &i64) -> i128 {
        *s as i128
    }
}

impl Nx for u128 {
    const NAME: &'static str = "u128d20";
    const UMAX: u128 = u128::MAX;
    const SMAX: i128 = i128::MAX;
    const SMIN: i128 = i128::MIN;
    fn fu(x: u128) -> Self {
        x
    }
    fn tu(self) -> u128 {
        self
    }
    fn fs(x: i128) -> i128 {
        x
    }
    fn ts(s: &i128) -> i128 {
        *s
    }
}

pub fn bu(x: u128) -> BigInt {
    BigInt::from(x)
}

pub fn bs(x: i128) -> BigInt {
    BigInt::from(x)
}

pub fn fits_u<T: Nx>(x: &BigInt) -> bool {
    *x >= BigInt::from(0u8) && *x <= bu(T::UMAX)
}

#[allow(dead_code)]
pub fn fits_s<T: Nx>(x: &BigInt) -> bool {
    *x >= bs(T::SMIN) && *x <= bs(T::SMAX)
}

/// Decimal string (JSON numbers cannot carry u128).
pub fn ds<D: std::fmt::Display>(x: D) -> Value {
    json!(x.to_string())
}

/// Boundary-biased unsigned in `0..=UMAX`.
pub fn gu<T: Nx>(rng: &mut Rng, unit: u128) -> u128 {
    rng.biased_u128(T::UMAX, unit)
}

/// Boundary-biased non-zero unsigned.
pub fn gnz<T: Nx>(rng: &mut Rng, unit: u128) -> u128 {
    gu::<T>(rng, unit).max(1)
}

/// Boundary-biased signed in `SMIN..=SMAX` (both limits reachable).
pub fn gs<T: Nx>(rng: &mut Rng, unit: u128) -> i128 {
    let m = rng.biased_u128(T::SMAX as u128 + 1, unit);
    if rng.bool() {
        if m > T::SMAX as u128 {
            T::SMIN
        } else {
            -(m as i128)
        }
    } else {
        m.min(T::SMAX as u128) as i128
    }
}

/// A small signed perturbation in `-k..=k`.
pub fn jitter(rng: &mut Rng, k: i64) -> i64 {
    rng.range_i64(-k, k)
}

/// Clamp a BigInt into `0..=UMAX` and return it in harness representation.
pub fn clamp_u<T: Nx>(x: &BigInt) -> u128 {
    if *x <= BigInt::from(0u8) {
        0
    } else if *x >= bu(T::UMAX) {
        T::UMAX
    } else {
        vcommon::big::to_u128(x).unwrap()
    }
}

/// Factor generator for "percentage-like" parameters: valid (`<= UNIT`) values incl. the limits,
/// and invalid (`> UNIT`) ones. Returns `(factor, is_valid)`.
pub fn gfactor<T: Nx>(rng: &mut Rng, unit: u128) -> u128 {
    match rng.below(16) {
        0 => 0,
        1 => 1,
        2 => unit - 1,
        3 => unit,
        4 => unit + 1,
        5 => unit.saturating_mul(2).min(T::UMAX),
        6 => T::UMAX,
        7 => gu::<T>(rng, unit),
        8 => unit + rng.log_u128(T::UMAX - unit),
        9 => unit / 2 + (jitter(rng, 1) + 1) as u128,
        // typical production magnitudes: 0.0001% .. 10%
        10 | 11 => rng.log_u128(unit / 10),
        _ => rng.range_u128(0, unit),
    }
}

/// Per-shard tally, keyed by (helper, class).
#[derive(Default)]
pub struct Tally {
    map: BTreeMap<(&'static str, &'static str), u64>,
    max: BTreeMap<(&'static str, &'static str), u64>,
}

impl Tally {
    pub fn hit(&mut self, helper: &'static str, class: &'static str) {
        *self.map.entry((helper, class)).or_insert(0) += 1;
    }

    #[allow(dead_code)]
    pub fn max(&mut self, helper: &'static str, class: &'static str, v: u64) {
        let e = self.max.entry((helper, class)).or_insert(0);
        if v > *e {
            *e = v;
        }
    }

    #[allow(dead_code)]
    pub fn get(&self, helper: &'static str, class: &'static str) -> u64 {
        self.map.get(&(helper, class)).copied().unwrap_or(0)
    }

    /// Flush into the monitor as `<ty>.<helper>.<class>` (sum) and `max_<ty>.<helper>.<class>`.
    pub fn flush(self, ty: &str, m: &mut Monitor) {
        for ((h, c), n) in self.map {
            m.add(&format!("{ty}.{h}.{c}"), n);
            // Type-independent totals used by `require`.
            m.add(&format!("all.{h}.{c}"), n);
        }
        for ((h, c), n) in self.max {
            m.max(&format!("max_{ty}.{h}.{c}"), n);
        }
    }
}

/// Bounded distinct-signature recorder: only the first `budget` non-trivial cases of a shard are
/// hashed into the monitor's distinct set (memory bound; the evidence therefore reports a measured
/// lower bound of the distinct non-trivial cases).
pub struct Distinct {
    left: u64,
}

impl Distinct {
    pub fn new(budget: u64) -> Self {
        Self { left: budget }
    }

    /// Budget per (shard, type) such that all shards together stay below the monitor's cap of
    /// 2·10⁶ distinct signatures.
    pub fn budget_for(shards: u64) -> u64 {
        1_900_000 / (shards.max(1) * 2)
    }

    pub fn note(&mut self, m: &mut Monitor, tag: u64, words: &[u128]) {
        if self.left == 0 {
            return;
        }
        self.left -= 1;
        let mut bytes = Vec::with_capacity(8 + 16 * words.len());
        bytes.extend_from_slice(&tag.to_le_bytes());
        for w in words {
            bytes.extend_from_slice(&w.to_le_bytes());
        }
        m.nontrivial(&bytes);
    }
}

/// Iterated fixed-point power exactly as "multiply `k` times, rounding each product down":
/// `p_0 = UNIT`, `p_{i+1} = floor(p_i * base / UNIT)`. Returns the list `p_1..=p_k` (empty for
/// `k == 0`).
pub fn pow_iter(base: &BigInt, k: u32, unit: &BigInt) -> Vec<BigInt> {
    let mut out = Vec::with_capacity(k as usize);
    let mut p = unit.clone();
    for _ in 0..k {
        p = vcommon::big::div_floor(&(&p * base), unit);
        out.push(p.clone());
    }
    out
}

/// Market construction for the two instantiations (the generic `MonMarket` has concrete
/// `Default`s only).
pub trait Mk<const D: u8>: Nx + gmsol_model::fixed::FixedPointOps<D> {
    /// A market with the production-like default configuration and empty pools.
    fn market() -> crate::monmarket::MonMarket<Self, D>;
    /// `UNIT / 10^9`: scale between the u64/9 presets of the repository's tests and this type.
    fn scale() -> u128;
}

impl Mk<9> for u64 {
    fn market() -> crate::monmarket::MonMarket<u64, 9> {
        Default::default()
    }
    fn scale() -> u128 {
        1
    }
}

impl Mk<20> for u128 {
    fn market() -> crate::monmarket::MonMarket<u128, 20> {
        Default::default()
    }
    fn scale() -> u128 {
        100_000_000_000
    }
}

/// `apply_exponent_factor` for a whole exponent `k·UNIT`, unbounded (GMX semantics: values below
/// one unit map to zero, one unit maps to one unit; above, the iterated rounded-down power).
pub fn aef_big(value: &BigInt, k: u32, unit: &BigInt) -> BigInt {
    if value < unit {
        BigInt::from(0u8)
    } else if value == unit || k == 0 {
        unit.clone()
    } else {
        pow_iter(value, k, unit).pop().unwrap()
    }
}
